# C13 — `X.output` makes X's outputs inputs of the consumer, across projects.
# Theorems: coq/Properties/C13.v (X becomes a dependency and is a build; X's output resources are appended verbatim, in order,
#   after the consumer's own; they are bound to X's project directory; bare/qualified spelling; independence of the entry).
# Correspondence: mode `resolve` on producer/consumer layouts (chains, several producers, producers in other projects with
#   identical relative paths and command texts); projection compared here: dependency lists, kinds, project dirs and the
#   complete input/output resources (absolute paths, normalised extension sets, command texts with their directories).
# Black box (behavioural half, end to end on the real binary): producer/consumer layouts across projects; between invocations
#   a producer's output file / input file / command-output source is edited, or a same-named file of ANOTHER project is;
#   every script appends its qualified name to a trace; the consumer must re-run exactly when a producer output changed and
#   must be skipped on an untouched tree.
import os
import time

import vf
from slices import resolve as R

PROP_TEXT = ('when a target lists `X.output` among its inputs, X is built first and every resource X declares as output — files '
             'with their extension filter, command resources run in X\'s project directory — counts as an input of the consumer '
             'exactly as if declared there; a change to X\'s outputs re-runs the consumer, unchanged outputs let it be skipped; '
             'also when X lives in another, imported project')


def layouts(ck, n):
    """producer/consumer arrangements: a valid configuration where most non-aggregate targets consume one or more producers"""
    for i in range(n):
        cfg = R.gen_config(ck.rng, max_targets=9, tnames=['gen', 'use', 'a', 'b', 'c', 'lib', 'x-1'],
                           nproj=ck.rng.choice([1, 2, 2, 3]), p_output=0.75)
        fam = 'layout'
        # identical relative paths / command texts in different projects: copy one producer's outputs into the others
        builds = [(p, t) for p in cfg.projects for (_, t) in p.targets if t.kind == 'B' and t.out]
        if builds and ck.rng.random() < 0.6:
            src = ck.rng.choice(builds)[1]
            for (p, t) in builds:
                if ck.rng.random() < 0.7:
                    t.out = list(src.out)
            fam = 'layout:identical-outputs'
        if ck.rng.random() < 0.12:
            cfg, f2 = R.mutate(ck.rng, cfg)
            fam += '+' + f2
        mode, args = R.gen_request(ck.rng, cfg)
        yield ('l%d' % i, cfg, mode, args, fam, ck.rng.choice(['json', 'block']))


# ------------------------------------------------------------------------------------------------ black box

class Tree:
    """one generated producer/consumer tree on disk + a counter-based clock for the mtimes the harness sets"""

    def __init__(self, ck, d, idx):
        self.ck = ck
        self.dir = os.path.join(d, 't%d' % idx)
        self.trace = os.path.join(self.dir, 'trace.log')
        self.clock = int(time.time()) - 100000 + idx * 1000
        self.log = []

    def write(self, rel, content):
        p = os.path.join(self.dir, rel)
        os.makedirs(os.path.dirname(p), exist_ok=True)
        with open(p, 'w') as f:
            f.write(content)
        self.clock += 7
        os.utime(p, (self.clock, self.clock))       # mtimes are set by the harness, never taken from the wall clock
        self.log.append('write %s = %r' % (rel, content))

    def run(self, root_rel, req):
        before = R.read_trace(self.trace)
        rc, out, err = R.run_zinoma(os.path.join(self.dir, root_rel), req)
        after = R.read_trace(self.trace)
        new = after[len(before):]
        self.log.append('zinoma -p %s %s -> exit %s, ran %s' % (root_rel, ' '.join(req), rc, new))
        if rc is None:
            raise TimeoutError('zinoma did not finish')
        return rc, new, err


def scenario(ck, d, idx):
    """root project R (consumer c, optional second consumer c2 of c) and project Q (producer x) at another directory.
       x: input in.txt, output out.txt (kept if present, so that an edit of the OUTPUT survives x's re-run) + a command
       resource `cat ver.txt` evaluated in Q's directory. R has files with the same relative names."""
    T, P, C = R.Tgt, R.Proj, R.Cfg
    rn, qn = ck.rng.sample(['app', 'lib', 'core', 'p-1', '_x'], 2)
    named = ck.rng.random() < 0.6
    dirs = ck.rng.choice([('root', 'root/q'), ('ws/root', 'ws/lib'), ('a/root', 'b'), ('root', 'root/deep/er/q')])
    tr = Tree(ck, d, idx)
    with_cmd = ck.rng.random() < 0.6
    chain = ck.rng.random() < 0.5
    same_proj_second = ck.rng.random() < 0.5
    tag = '%s::' % rn if named else ''
    xq = qn + '::x'
    # producer
    x_out = [('F', ['out.txt'], ck.rng.choice([None, ['txt'], ['.txt', '']]))]
    if with_cmd:
        x_out.append(('C', 'cat ver.txt'))
    x = T('B', [], 'test -f out.txt || cat in.txt > out.txt; echo "%s" >> "%s"' % (xq, tr.trace), [('F', ['in.txt'], None)], x_out)
    # a second producer in the ROOT project with the same relative output path
    y = T('B', [], 'test -f out.txt || echo y1 > out.txt; echo "%sy" >> "%s"' % (tag, tr.trace), [('F', ['yin.txt'], None)],
          [('F', ['out.txt'], None)])
    c_in = [('O', xq + '.output')]
    if same_proj_second:
        c_in.append(('O', ck.rng.choice(['y', (rn + '::y') if named else 'y']) + '.output'))
    c = T('B', [], 'cat "%s" > cout.txt; echo "%sc" >> "%s"' % (os.path.join(tr.dir, dirs[1], 'out.txt'), tag, tr.trace), c_in,
          [('F', ['cout.txt'], None)])
    targets = [('c', c), ('y', y)]
    if chain:
        targets.append(('c2', T('B', [], 'echo "%sc2" >> "%s"' % (tag, tr.trace), [('O', 'c.output')])))
    root = P(rn if named else None, dirs[0], [(qn, 1, ck.rng.choice(['rel', 'abs']))], targets)
    q = P(qn, dirs[1], [], [('x', x)])
    cfg = C([root, q])
    cfg.base = R.TOKEN
    R.render(cfg, tr.dir, ck.rng.choice(['json', 'block']))
    tr.write(os.path.join(dirs[1], 'in.txt'), 'v1\n')
    tr.write(os.path.join(dirs[1], 'ver.txt'), 'q-1\n')
    tr.write(os.path.join(dirs[0], 'in.txt'), 'root-in\n')
    tr.write(os.path.join(dirs[0], 'ver.txt'), 'root-1\n')
    tr.write(os.path.join(dirs[0], 'yin.txt'), 'y-in\n')
    top = 'c2' if chain else 'c'
    C_, X_, Y_, C2_ = tag + 'c', xq, tag + 'y', tag + 'c2'
    steps = []      # (description, action, expected new trace lines as a set, must-be-ordered pairs)

    def expect(desc, new, want, order=()):
        want = sorted(want)
        ok = sorted(new) == want and all(new.index(a) < new.index(b) for (a, b) in order if a in new and b in new)
        steps.append((desc, new, want, ok))
        return ok

    all_ok = True
    rc, new, err = tr.run(dirs[0], [top])
    first = [X_, C_] + ([Y_] if same_proj_second else []) + ([C2_] if chain else [])
    all_ok &= expect('first build: producers before consumers', new, first,
                     [(X_, C_), (C_, C2_)] + ([(Y_, C_)] if same_proj_second else [])) and rc == 0
    rc, new, err = tr.run(dirs[0], [top])
    all_ok &= expect('untouched tree: everything skipped', new, []) and rc == 0
    # edit the producer's OUTPUT file
    tr.write(os.path.join(dirs[1], 'out.txt'), 'edited-output\n')
    rc, new, err = tr.run(dirs[0], [top])
    all_ok &= expect('producer output file edited: producer and consumer(s) re-run', new, [X_, C_] + ([C2_] if chain else []),
                     [(X_, C_), (C_, C2_)]) and rc == 0
    rc, new, err = tr.run(dirs[0], [top])
    all_ok &= expect('untouched again: skipped', new, []) and rc == 0
    # a file with the same relative name in the CONSUMER's project is not an input of anybody (unless y is consumed)
    tr.write(os.path.join(dirs[0], 'in.txt'), 'root-in-2\n')
    tr.write(os.path.join(dirs[0], 'ver.txt'), 'root-2\n')
    rc, new, err = tr.run(dirs[0], [top])
    all_ok &= expect('same-named files of the consumer\'s own project edited: nothing re-runs', new, []) and rc == 0
    if with_cmd:
        tr.write(os.path.join(dirs[1], 'ver.txt'), 'q-2\n')
        rc, new, err = tr.run(dirs[0], [top])
        # x's own output command changed -> x re-runs (keeps out.txt) ; c sees the changed command output -> re-runs;
        # c rewrites cout.txt with the same content -> c2 is skipped
        all_ok &= expect('producer command output (run in the producer\'s directory) changed: producer and consumer re-run', new,
                         [X_, C_], [(X_, C_)]) and rc == 0
    if same_proj_second:
        tr.write(os.path.join(dirs[0], 'out.txt'), 'y-edited\n')
        rc, new, err = tr.run(dirs[0], [top])
        all_ok &= expect('second producer (same relative path, consumer\'s project) output edited: it and the consumer re-run', new,
                         [Y_, C_], [(Y_, C_)]) and rc == 0
    # entry independence: the same tree entered from the producer's own directory sees x as up to date
    rc, new, err = tr.run(dirs[1], ['x'])
    all_ok &= expect('producer requested from its own project directory: skipped (same recorded state)', new, []) and rc == 0
    ck.count(('blackbox', idx, named, dirs, with_cmd, chain, same_proj_second))
    if idx < 2:
        R.priority_sample(ck, {'blackbox': 'producer/consumer history', 'config': R.describe(cfg, 'REQ', [top]), 'history': tr.log})
    ck.tally('blackbox:scenario' + (':cmd' if with_cmd else '') + (':chain' if chain else '') + (':two-producers' if same_proj_second else ''))
    if not all_ok:
        bad = [{'step': s[0], 'ran': s[1], 'expected': s[2]} for s in steps if not s[3]]
        ck.violation({'kind': 'blackbox-producer-consumer', 'config': R.describe(cfg, 'REQ', [top]), 'cfg': R.dump_cfg(cfg),
                      'history': tr.log, 'failing_steps': bad, 'property_text': PROP_TEXT,
                      'what': 'the consumer was not re-run / not skipped as the property asks',
                      'replay': 'render the projects (slices/resolve.py render), apply the history (writes + invocations) in order, '
                                'compare the lines appended to trace.log by each invocation'}, found_input=True)
    return len(steps)


def scenario_same_text(ck, d, idx):
    """EQUAL command text in the consumer's and the producer's project (DESIGN.md §7 D5/D6; needs slice INC's FX3: recorded
       command outputs keyed by (command, directory)). Enabled with VERIF_C13_SAME_TEXT=1."""
    T, P, C = R.Tgt, R.Proj, R.Cfg
    tr = Tree(ck, d, 1000 + idx)
    dirs = ck.rng.choice([('root', 'root/q'), ('ws/root', 'ws/lib')])
    x = T('B', [], 'echo "q::x" >> "%s"' % tr.trace, [('F', ['in.txt'], None)], [('C', 'cat ver.txt')])
    c = T('B', [], 'echo "c" >> "%s"' % tr.trace, [('C', 'cat ver.txt'), ('O', 'q::x.output')])
    cfg = C([P(None, dirs[0], [('q', 1, 'rel')], [('c', c)]), P('q', dirs[1], [], [('x', x)])])
    cfg.base = R.TOKEN
    R.render(cfg, tr.dir, 'json')
    tr.write(os.path.join(dirs[1], 'in.txt'), 'v1\n')
    tr.write(os.path.join(dirs[1], 'ver.txt'), 'q-1\n')
    tr.write(os.path.join(dirs[0], 'ver.txt'), 'root-1\n')
    bad = []

    def step(desc, want):
        rc, new, err = tr.run(dirs[0], ['c'])
        if rc != 0 or sorted(new) != sorted(want):
            bad.append({'step': desc, 'ran': new, 'expected': want, 'exit': rc})
    step('first build', ['q::x', 'c'])
    step('untouched tree: skipped although the two directories give different outputs for the same command text', [])
    tr.write(os.path.join(dirs[0], 'ver.txt'), 'q-1\n')
    step('the consumer\'s own command output changes to the value of the producer\'s: consumer re-runs', ['c'])
    tr.write(os.path.join(dirs[1], 'ver.txt'), 'q-2\n')
    step('the producer\'s command output changes: producer and consumer re-run', ['q::x', 'c'])
    step('untouched again', [])
    ck.count(('blackbox-same-text', idx, dirs))
    ck.tally('blackbox:scenario:same-command-text')
    if bad:
        ck.violation({'kind': 'blackbox-producer-consumer', 'config': R.describe(cfg, 'REQ', ['c']), 'cfg': R.dump_cfg(cfg),
                      'history': tr.log, 'failing_steps': bad, 'property_text': PROP_TEXT,
                      'what': 'equal command texts in two project directories are confused (recorded output keyed by the text only)',
                      'replay': 'render the projects, apply the history in order, compare the lines appended to trace.log'},
                     found_input=True)
    return 5


def run(ck):
    quick = ck.tier == 'quick'
    ck.rule('resolve/resources: producer/consumer layouts (1-3 projects, 75% of the inputs of builds/services are `X.output` references '
            'to builds in the same or another project, bare or qualified; 60% of the trees give several producers IDENTICAL relative '
            'output paths / command texts; paths incl. absolute, empty, `..`; extension lists incl. empty entries and missing dots; '
            '12% with a malformed reference); non-trivial = distinct (configuration, request); compared: dependency lists, kinds, '
            'project dirs, complete input/output resources with absolute paths, normalised extension sets and command directories; '
            'oracle: expected resources recomputed from the property text')
    ncases, ndiff = R.run_stream(ck, layouts(ck, 2500 if quick else 40000), 'resources', PROP_TEXT, 'C13')
    ck.extra['cases'] = ncases
    d = os.path.realpath(vf.scratch_dir('C13bb'))
    nsteps = 0
    nsc = 4 if quick else 24
    for i in range(nsc):
        try:
            nsteps += scenario(ck, d, i)
        except TimeoutError:
            ck.tally('blackbox:inconclusive-timeout')     # an engine hang is C04's subject; these layouts share no dependency
    if os.environ.get('VERIF_C13_SAME_TEXT') == '1':
        for i in range(2 if quick else 6):
            try:
                nsteps += scenario_same_text(ck, d, i)
            except TimeoutError:
                ck.tally('blackbox:inconclusive-timeout')
    ck.rule('black box: real binary on generated two-project trees (producer in the imported project at a child / sibling / deep '
            'directory, optional second producer with the same relative path in the consumer\'s project, optional chain c2 <- c, '
            'optional command resource); history: build, re-run untouched, edit producer output, edit same-named files of the '
            'consumer\'s project, edit the producer\'s command source, enter from the producer\'s directory; mtimes set by the harness')
    vf.sh(['rm', '-rf', d])
    ck.extra['blackbox_scenarios'] = nsc
    ck.extra['blackbox_invocations'] = nsteps
    ck.assumptions.append('command resources with EQUAL text in different directories are exercised structurally only (model/impl '
                          'resolver output); their behavioural half needs slice INC\'s FX3 (DESIGN.md §7 D5/D6)')
    ck.assumptions.append('the skip decision itself (mtime-or-hash, cardinality) is slice INC\'s C02/C03; here it is observed end to end')


def replay(ck, path):
    import json
    rep = json.load(open(path))
    if 'cfg' not in rep or rep.get('kind') != 'resolve-correspondence':
        return run(ck)
    cfg = R.load_cfg(rep['cfg'])
    args = [tuple(a) if isinstance(a, list) else a for a in rep.get('args', [])]
    b = R.Batch('C13replay')
    b.add('replay', cfg, rep.get('mode', 'REQ'), args, rep.get('family', 'replay'))
    b.run()
    R.compare(ck, b, 'resources', PROP_TEXT)
    b.cleanup()
