# C09 — requested set = dependency closure; broken graphs are rejected up front.
# Theorems: coq/Properties/C09.v (soundness = closure + dependency lists + acyclic, completeness, rejection with a matching
#   class, fuel never exhausted / no panic, removal of converted targets unobservable, no effect before a successful resolve).
# Correspondence: mode `resolve` — the REAL yaml loader + ir::Config + name listing + try_parse_many + try_into_domain_targets
#   on generated multi-project trees rendered to zinoma.yml files, against the extracted Resolver.resolve on the same
#   abstract configuration; projection compared here: verdict / error class, resolved key set, kinds, dependency lists.
# Black box: the real binary with `--clean` on broken configurations: exit status != 0, tree byte-identical, no script run
#   (and a control: the same trees without the defect do run and clean).
import itertools
import os

import vf
from slices import resolve as R

PROP_TEXT = ('zinoma either works on exactly the targets reachable from the requested ones through `dependencies` and '
             '`X.output` references (each resolved in the project of the referring target unless qualified), or refuses to '
             'start — running no script and deleting nothing — when a reachable reference names an unknown project or '
             'target, closes a cycle, or takes the `.output` of a non-build target')


def corpus():
    """minimal shapes named in the property's rationale and in DESIGN.md §7/§9.4"""
    T, P, C = R.Tgt, R.Proj, R.Cfg
    out = []
    # 3-cycle, 2-cycle through resources, unknown name (the existing fixtures)
    out.append(('corpus-3cycle', C([P(None, 'root', [], [('a', T('B', ['b'])), ('b', T('B', ['c'])), ('c', T('B', ['a']))])]), 'REQ', ['a']))
    out.append(('corpus-2cycle-resources', C([P(None, 'root', [], [('a', T('B', [], 'true', [('O', 'b.output')])),
                                                                   ('b', T('B', [], 'true', [('O', 'a.output')]))])]), 'REQ', ['a']))
    out.append(('corpus-unknown', C([P(None, 'root', [], [('a', T('B', ['nope']))])]), 'REQ', ['a']))
    # shapes the fixtures do not have
    out.append(('corpus-self-loop', C([P(None, 'root', [], [('a', T('B', ['a']))])]), 'REQ', ['a']))
    out.append(('corpus-self-output', C([P(None, 'root', [], [('a', T('B', [], 'true', [('O', 'a.output')]))])]), 'REQ', ['a']))
    out.append(('corpus-cycle-not-through-root', C([P(None, 'root', [], [('r', T('B', ['x'])), ('x', T('A', ['y'])), ('y', T('B', ['x']))])]), 'REQ', ['r']))
    out.append(('corpus-cycle-unreachable', C([P(None, 'root', [], [('r', T('B', [])), ('x', T('A', ['y'])), ('y', T('B', ['x']))])]), 'REQ', ['r']))
    out.append(('corpus-diamond-revisit', C([P(None, 'root', [], [('a', T('A', ['b', 'c'])), ('b', T('B', ['d'])), ('c', T('B', ['d', 'd'])), ('d', T('B', []))])]), 'REQ', ['a']))
    out.append(('corpus-dep-and-output', C([P(None, 'root', [], [('a', T('B', ['b'], 'true', [('O', 'b.output')])), ('b', T('B', [], 'true', [], [('F', ['o'], None)]))])]), 'REQ', ['a']))
    out.append(('corpus-three-colons', C([P('p', 'root', [], [('a', T('B', ['a::b::c']))])]), 'REQ', ['a']))
    out.append(('corpus-empty-project', C([P('p', 'root', [], [('a', T('B', ['::x']))])]), 'REQ', ['a']))
    out.append(('corpus-empty-target', C([P('p', 'root', [], [('a', T('B', ['p::']))])]), 'REQ', ['a']))
    out.append(('corpus-output-of-service', C([P(None, 'root', [], [('a', T('B', [], 'true', [('O', 's.output')])), ('s', T('S', []))])]), 'REQ', ['a']))
    out.append(('corpus-output-of-aggregate', C([P(None, 'root', [], [('a', T('S', [], 'true', [('O', 'g.output')])), ('g', T('A', []))])]), 'REQ', ['a']))
    out.append(('corpus-bad-output-string', C([P(None, 'root', [], [('a', T('B', [], 'true', [('O', 'b.out')])), ('b', T('B', []))])]), 'REQ', ['a']))
    out.append(('corpus-cross-project', C([P('r', 'root', [('s', 1, 'rel')], [('t', T('B', ['s::t', 't2'])), ('t2', T('B', []))]),
                                           P('s', 'root/sub', [('r', 0, 'rel')], [('t', T('B', ['t2', 'r::t2'])), ('t2', T('B', []))])]), 'REQ', ['t', 'r::t']))
    out.append(('corpus-cross-project-cycle', C([P('r', 'root', [('s', 1, 'rel')], [('t', T('B', ['s::t']))]),
                                                 P('s', 'root/sub', [('r', 0, 'rel')], [('t', T('B', ['r::t']))])]), 'REQ', ['t']))
    out.append(('corpus-api-unqualified-id', C([P('r', 'root', [], [('t', T('B', []))])]), 'IDS', [(None, 't')]))
    out.append(('corpus-all-broken-elsewhere', C([P(None, 'root', [], [('a', T('B', [])), ('z', T('B', ['nope']))])]), 'ALL', []))
    return out


def random_cases(ck, n):
    for i in range(n):
        cfg = R.gen_config(ck.rng)
        fam = 'valid'
        if ck.rng.random() < 0.45:
            cfg, fam = R.mutate(ck.rng, cfg)
        mode, args = R.gen_request(ck.rng, cfg)
        r = ck.rng.random()
        if r < 0.04:            # a requested name outside the accepted ones (clap rejects it)
            args = list(args) + [ck.rng.choice(['nope', 'ghost::a', 'a::b::c', '::x', 'x::', ''])]
            mode, fam = 'REQ', fam + ':unknown-request'
        elif r < 0.07:          # API level: strings parsed without the accepted-names test
            mode, args, fam = 'RAW', [ck.rng.choice(['nope', 'ghost::a', 'a::b::c', '::x', 'x::', 'a'])], fam + ':raw-request'
        elif r < 0.09:          # API level: an unqualified id whatever the root's name
            ids = cfg.all_ids()
            mode, args, fam = 'IDS', [(None, ck.rng.choice(ids)[1] if ids else 'a')], fam + ':raw-id'
        yield ('r%d' % i, cfg, mode, args, fam, ck.rng.choice(['json', 'block']))


def exhaustive_cases(ck, n, two_projects, sample=None):
    """all digraphs (self loops included) on n nodes x kinds x edge kinds, node 0 requested
       (sample = probability of keeping a shape; None = all)"""
    k = 0
    for kinds, edges in R.small_graphs(n):
        if sample is not None and ck.rng.random() >= sample:
            continue
        if n == 3 and not two_projects:
            # nodes 1 and 2 are interchangeable (node 0 is the requested one): keep one representative of each pair
            sw = {0: 0, 1: 2, 2: 1}
            k2 = (kinds[0], kinds[2], kinds[1])
            e2 = sorted((sw[i], sw[j], e) for (i, j, e) in edges)
            if (k2, e2) < (tuple(kinds), sorted(edges)):
                continue
        cfg = R.graph_config(kinds, edges, two_projects)
        yield ('x%d_%d_%d' % (n, 1 if two_projects else 0, k), cfg, 'REQ', ['t0'],
               'exhaustive-%d%s' % (n, '-2proj' if two_projects else ''), 'json')
        k += 1


def all_digraph_cases(ck, n):
    """ALL 2^(n*n) digraphs on n nodes (self loops included), every node a build, every edge a declared dependency"""
    pairs = [(i, j) for i in range(n) for j in range(n)]
    for mask in range(1 << len(pairs)):
        edges = [(i, j, 1) for k, (i, j) in enumerate(pairs) if mask >> k & 1]
        yield ('g%d_%d' % (n, mask), R.graph_config(('B',) * n, edges, False), 'REQ', ['t0'], 'all-digraphs-%d' % n, 'json')


def sampled_graph_cases(ck, n, count, two_projects):
    for k in range(count):
        kinds, edges = R.random_small_graph(ck.rng, n)
        yield ('s%d_%d_%d' % (n, 1 if two_projects else 0, k), R.graph_config(kinds, edges, two_projects), 'REQ', ['t0'],
               'sampled-%d%s' % (n, '-2proj' if two_projects else ''), 'json')


def blackbox(ck, nbroken, nvalid):
    d = os.path.realpath(vf.scratch_dir('C09bb'))
    done = 0
    tries = 0
    records = []
    want = [('broken', nbroken), ('valid', nvalid)]
    for kind, count in want:
        made = 0
        while made < count and tries < 400:
            tries += 1
            cfg = R.gen_config(ck.rng, max_targets=6)
            fam = 'valid'
            if kind == 'broken':
                cfg, fam = R.mutate(ck.rng, cfg)
            case_dir = os.path.join(d, 'b%d' % tries)
            trace = os.path.join(case_dir, 'trace.log')
            cfg = R.sanitise_for_blackbox(cfg, trace)
            names = R.accepted_names(cfg)
            if not names:
                continue
            use_all = ck.rng.random() < 0.3
            req = [] if use_all else [ck.rng.choice(names) for _ in range(ck.rng.choice([1, 2]))]
            ids = cfg.all_ids() if use_all else [R.parse_id(r, cfg.projects[0].name) for r in req]
            found, reach = R.defects(cfg, ids)
            if (kind == 'broken') != bool(found) or 'PANIC' in found:
                continue
            if kind == 'valid' and R.shares_dependency(cfg, ids):
                continue        # shared dependencies can hang the pinned engine (C04, DESIGN.md §7 D2): not this property
            made += 1
            done += 1
            cfg.base = R.TOKEN
            R.render(cfg, case_dir, ck.rng.choice(['json', 'block']))
            R.materialise_outputs(cfg, case_dir)
            root_dir = os.path.join(case_dir, cfg.projects[0].rel)
            before = R.snapshot(case_dir)
            rc, out, err = R.run_zinoma(root_dir, ['--clean'] + req)
            after = R.snapshot(case_dir)
            ran = R.read_trace(trace)
            if rc is None:
                ck.tally('blackbox:inconclusive-timeout')
                continue
            records.append(('b%d' % tries, cfg, 'ALL' if use_all else 'REQ', req, rc, ran, case_dir, reach))
            ck.count(('blackbox', kind, R.shape_of(cfg, 'ALL' if use_all else 'REQ', req)))
            if made <= 1:
                R.priority_sample(ck, {'blackbox': kind, 'request': ['--clean'] + req, 'defects': sorted(found), 'exit': rc, 'ran': ran,
                                       'config': R.describe(cfg, 'ALL' if use_all else 'REQ', req)})
            ck.tally('blackbox:' + kind)
            rep = {'kind': 'blackbox-clean', 'config': R.describe(cfg, 'ALL' if use_all else 'REQ', req), 'cfg': R.dump_cfg(cfg),
                   'command': 'zinoma -p <root> --clean ' + ' '.join(req), 'defects': sorted(found), 'exit_status': rc,
                   'scripts_run': ran, 'stderr': err[-600:], 'property_text': PROP_TEXT,
                   'replay': 'render the projects (slices/resolve.py render + materialise_outputs), run the command, compare the tree'}
            if kind == 'broken':
                changed = sorted(k for k in set(before) | set(after) if before.get(k) != after.get(k))
                if rc == 0 or ran or changed:
                    rep['what'] = 'a broken configuration was not refused up front: exit=%d, scripts run=%s, changed paths=%s' % (rc, ran, changed[:8])
                    ck.violation(rep, found_input=True)
            else:
                # without requested targets `--clean` only cleans; otherwise exactly the builds of the closure run
                expect = [] if use_all else sorted(R.display(t) for t in reach if R.lookup(cfg, t)[1].kind == 'B')
                # what `--clean <targets>` may delete: declared outputs and recorded state of the CLOSURE only
                # (without targets: every work dir and every output)
                allowed = set()
                for p in cfg.projects:
                    for (n2, t2) in p.targets:
                        if use_all or (p.name, n2) in reach:
                            allowed.add(os.path.normpath(os.path.join(p.rel, '.zinoma', R.display((p.name, n2)) + '.checksums')))
                            for it in (t2.out if t2.kind == 'B' else []):
                                if it[0] == 'F':
                                    allowed.update(os.path.normpath(os.path.join(p.rel, x)) for x in it[1])
                gone = sorted(k for k in before if before[k][0] == 'f' and k not in after)
                outside = [k for k in gone if k not in allowed and not (use_all and '/.zinoma/' in '/' + k)]
                if rc != 0 or sorted(ran) != expect or outside:
                    rep['what'] = 'control run on a sound configuration: exit=%d, scripts run %s (closure builds %s), deleted outside ' \
                                  'the closure: %s' % (rc, sorted(ran), expect, outside)
                    rep['deleted'] = gone
                    ck.violation(rep, found_input=True)
                ck.tally('blackbox:valid-cleaned-files', len(gone))
    # Resolver.main_phases (the model of main.rs's phase order) against what the real binary did on the same cases
    import re
    cf = os.path.join(d, 'main_cases.txt')
    with open(cf, 'w', encoding='utf-8') as f:
        for (cid, cfg, mode, req, rc, ran, case_dir, reach) in records:
            cfg.base = R.TOKEN + '/' + cid
            f.write(R.encode(cfg, cid, case_dir, d, mode, req))
    model = vf.by_id(vf.run_model('resolve', cf))
    for (cid, cfg, mode, req, rc, ran, case_dir, reach) in records:
        line = model.get(cid + '#main', '')
        mt = re.search(r'clean=([^\[]+)\[(.*)\]$', line)
        outcome, effects = (mt.group(1), mt.group(2).split(' ') if mt.group(2) else []) if mt else ('?', [])
        touched = sorted(set(e.split(':', 1)[1] for e in effects if e.startswith('clean:') or e.startswith('state:')))
        expect_touched = sorted(R.tid_field(t) for t in reach) if rc == 0 else []
        agree = (outcome == 'ran') == (rc == 0) and (rc == 0 or not effects) and (rc != 0 or touched == expect_touched)
        ck.tally('blackbox:main_phases:' + outcome.split(':')[0])
        if not agree:
            ck.violation({'kind': 'main-phases-correspondence', 'config': R.describe(cfg, mode, req), 'cfg': R.dump_cfg(cfg),
                          'model main_phases (--clean)': line, 'real exit status': rc, 'real scripts run': ran,
                          'what': 'Resolver.main_phases and the real main disagree on outcome / set of targets touched'},
                         found_input=False)
    vf.sh(['rm', '-rf', d])
    return done


def run(ck):
    quick = ck.tier == 'quick'
    ck.rule('resolve: abstract configurations (1-3 projects, named/unnamed root, mutual imports, <=12 targets of all kinds, '
            'declared and `.output` references, bare/qualified spellings, duplicates, 45% with one or two malformations: unknown '
            'target/project, a::b::c, ::x, x::, bad `.output` strings, `.output` of service/aggregate, self loops, back edges) '
            'rendered to real zinoma.yml files (JSON flow or block style); requests: accepted names (both spellings), none, unknown '
            'names, API-level strings/ids; non-trivial = distinct (configuration, request); compared: verdict/error class, key '
            'set, kinds, dependency lists; oracle: independent closure/defect computation from the property text')
    def stream():
        for i, (name, cfg, mode, args) in enumerate(corpus()):
            yield ('k%d' % i, cfg, mode, args, name, 'json')
        yield from random_cases(ck, 2000 if quick else 20000)
        # exhaustive small scope (flagged): every digraph incl. self loops x kinds x edge kinds, node 0 requested
        yield from exhaustive_cases(ck, 1, False)
        yield from exhaustive_cases(ck, 2, False)
        yield from exhaustive_cases(ck, 2, True)
        if quick:
            yield from sampled_graph_cases(ck, 3, 1000, False)
            yield from sampled_graph_cases(ck, 4, 500, True)
        else:
            yield from exhaustive_cases(ck, 3, False)
            yield from all_digraph_cases(ck, 4)
            yield from sampled_graph_cases(ck, 3, 10000, True)
            yield from sampled_graph_cases(ck, 4, 15000, False)
            yield from sampled_graph_cases(ck, 4, 5000, True)
    import time
    t0 = time.time()
    ncases, ndiff = R.run_stream(ck, stream(), 'graph', PROP_TEXT, 'C09')
    vf.log('[C09] correspondence: %d cases, %d differences, %.1fs' % (ncases, ndiff, time.time() - t0))
    ck.extra['exhaustive_scope'] = ('EXHAUSTIVE: all digraphs (self loops included) x kind assignments x edge kinds (declared / `.output`), '
                              'node 0 requested, on <=2 nodes in one and in two mutually importing projects' +
                              ('; 3 and 4 nodes sampled' if quick else
                               ' and on 3 nodes in one project (238 328 shapes, one representative per swap of the two non-requested nodes); ALL 65 536 digraphs on 4 nodes with build '
                               'targets and declared edges; 3 nodes in two projects and 4 nodes with mixed kinds sampled'))
    ck.extra['cases'] = ncases
    # the extracted runner against Coq's own evaluation (vm_compute) on sampled cases
    xs = []
    for _ in range(8 if quick else 80):
        cfg = R.gen_config(ck.rng)
        if ck.rng.random() < 0.4:
            cfg, _f = R.mutate(ck.rng, cfg)
        mode, args = R.gen_request(ck.rng, cfg)
        xs.append((cfg, mode, args))
    nx, okx, logx = R.coq_cross_check(ck, xs, 'C09x')
    ck.extra['extraction_cross_check'] = '%d sampled cases re-evaluated inside Coq (vm_compute, Resolver.resolve_default) = extracted runner: %s' % (nx, okx)
    if not okx:
        ck.violation({'kind': 'extraction-cross-check', 'what': 'the extracted OCaml model and vm_compute inside Coq disagree on a sampled case '
                      '(or the generated Cases.v does not compile)', 'coqc_output': logx}, found_input=False)
    t0 = time.time()
    n = blackbox(ck, 8 if quick else 40, 8 if quick else 30)
    vf.log('[C09] black box: %d runs, %.1fs' % (n, time.time() - t0))
    ck.rule('black box: the real binary with --clean on generated broken configurations (must exit != 0, leave the tree '
            'byte-identical, run no script) and on sound ones (control: exit 0, exactly the build targets of the closure run)')
    ck.extra['blackbox_runs'] = n
    ck.assumptions.append('recursion depth vs the process stack (chains of >2000 targets) is not modelled (DESIGN.md §9.2)')
    ck.assumptions.append('project names pairwise distinct in generated trees (duplicate names are C14/FX7)')


def replay(ck, path):
    import json
    rep = json.load(open(path))
    if 'cfg' not in rep or rep.get('kind') != 'resolve-correspondence':
        return run(ck)
    cfg = R.load_cfg(rep['cfg'])
    args = [tuple(a) if isinstance(a, list) else a for a in rep.get('args', [])]
    b = R.Batch('C09replay')
    b.add('replay', cfg, rep.get('mode', 'REQ'), args, rep.get('family', 'replay'))
    b.run()
    R.compare(ck, b, 'graph', PROP_TEXT)
    b.cleanup()
