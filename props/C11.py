# C11 — services: kept alive when requested, transient when only depended on; never two instances at once.
# Theorems: coq/Properties/C11.v. Correspondence: real actors vs Actor.actor_step projected on the `actual` flag of the
# acknowledgements, service starts and live instances; service-lifetime scenarios on the real binary (a service root, an
# aggregate root over a service, nested aggregates, a service only under builds): liveness of zinoma and of the service
# shells while dependents are in progress, exactly one live instance, nothing left after exit.
import concurrent.futures
import json
import random
from slices import actor, engine, root, sysrun, watchrun


def lifetimes(ck):
    n = 14 if ck.tier == 'quick' else 170
    jobs = []
    for i in range(n):
        r = random.Random(ck.rng.getrandbits(48))
        fam, T, roots = sysrun.gen_graph(r, family=r.choice(['svc', 'svc', 'aggchain', 'random']))
        jobs.append((i, fam, T, roots, r))
    found = []

    def one(j):
        i, fam, T, roots, r = j
        return j, sysrun.service_scenario(r, T, roots, tag='C11_%d' % i)
    with concurrent.futures.ThreadPoolExecutor(max_workers=6) as ex:
        for j, (obs, V) in ex.map(one, jobs):
            i, fam, T, roots, r = j
            nsvc = len([t for t in T if T[t]['kind'] == 'service'])
            ck.count(('svc', json.dumps(T, sort_keys=True), tuple(roots)), nontrivial=nsvc > 0,
                     sample={'family': fam, 'targets': T, 'roots': roots, 'keepalive_expected': obs['keepalive_expected'],
                             'alive_after_builds': obs['alive_after_builds'], 'liveness_checks': obs['liveness_checks'],
                             'trace': obs['trace'][:10]})
            ck.tally('svc:keepalive=%s' % obs['keepalive_expected'])
            ck.tally('svc:liveness_checks', obs['liveness_checks'])
            if 'C11' in V:
                o = dict(obs)
                o.update({'outcome': 'alive' if obs['alive_after_builds'] else 'exited', 'fail': [], 'gated': True, 'stderr_tail': ''})
                found.append((o, V['C11']))
    # eight dependency-only services and a build that fails once they are all up: none may survive the exit
    for i in range(1 if ck.tier == 'quick' else 6):
        r = random.Random(ck.rng.getrandbits(48))
        T = {'s%d' % j: {'kind': 'service', 'deps': []} for j in range(8)}
        T['bad'] = {'kind': 'build', 'deps': list(T)}
        T['side'] = {'kind': 'build', 'deps': ['s0']}
        obs, V = sysrun.oneshot(r, T, ['bad', 'side'], fail={'bad': r.choice([1, 3, 'K9'])}, gated=True, tag='C11f%d' % i, second_run=False)
        ck.count(('svcfail', i), nontrivial=True, sample={'targets': '8 services + bad (fails) + side', 'outcome': obs['outcome'],
                                                           'exit_code': obs['exit_code'], 'trace': obs['trace'][:12]})
        ck.tally('svc:failing_build_with_8_services')
        if 'C11' in V:
            found.append((obs, V['C11']))
    # watch mode: services restarted by changes of their own input or of a producer must never overlap
    wf, _ = watchrun.campaign(ck, 'C11', 6 if ck.tier == 'quick' else 60, fixed=[
        ({'w0': {'kind': 'build', 'own_input': True, 'producers': [], 'deps': []},
          'svc': {'kind': 'service', 'own_input': True, 'producers': ['w0'], 'deps': []}}, ['svc'], False,
         [('change', 'svc'), ('idle',), ('change', 'w0'), ('idle',), ('change', 'w0'), ('idle',)])])
    found += wf
    return found


def keep(o):
    return '<-Ok:' in o


def run(ck):
    engine.check_engine(ck, 'C11', actor.proj(keep_out=keep, keys=('starts', 'alive', 'zombies')),
                        'Ok messages with their actual flag + service starts + live instances',
                        families=['svc', 'aggchain', 'random'], fail_p=0.45, gated_p=0.8, n_sys_quick=16, extra=lifetimes,
                        n_root_quick=150, root_projection=root.status_only, root_what='whether and with which status run returns', n_evflow_quick=16)


def replay(ck, path):
    engine.replay(ck, 'C11', path, run)
