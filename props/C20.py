# C20 — an aggregate is equivalent to requesting its dependencies.
# Theorems: coq/Properties/C20.v. Correspondence: real actors vs Actor.actor_step projected on what aggregates emit
# (Ok with actual flag, Invalidated, requests); metamorphic pairs on the real binary: request the aggregate G vs request its
# dependencies on copies of one project — same scripts run, same exit status class, same liveness afterwards; aggregates
# nested, empty, over builds, services or both, with failing scripts.
import json
import random
from slices import actor, engine, sysrun


def pairs(ck):
    n = 10 if ck.tier == 'quick' else 120
    found = []
    done = 0
    tries = 0
    while done < n and tries < n * 6:
        tries += 1
        r = random.Random(ck.rng.getrandbits(48))
        hold = 0.0
        if tries % 2 == 0 or tries == 1:
            # deep nesting: an aggregate reached directly and through a long chain of nested aggregates
            fam = 'deepnest'
            depth = r.choice([5, 12, 40]) if tries > 1 else 12
            if r.random() < 0.5 or tries == 1:       # the first pair of every run is of shape (A), depth 12
                # (A) late requester of an aggregate: all -> [group, d1], d1 -> ... -> dN -> [group], group -> [slow]; the slow
                #     build is kept in progress until the requests travelling down the chain have arrived
                T = {'slow': {'kind': 'build', 'deps': []}, 'group': {'kind': 'aggregate', 'deps': ['slow']}}
                prev = 'group'
                hold = 0.4
            else:
                # (B) `actual` collected in an unusual order: a real service next to a long service-less nested branch
                T = {'fast': {'kind': r.choice(['build', 'aggregate']), 'deps': []}, 'svc2': {'kind': 'service', 'deps': []}}
                prev = 'fast'
            for i in range(depth, 0, -1):
                T['d%d' % i] = {'kind': 'aggregate', 'deps': [prev]}
                prev = 'd%d' % i
            tops = (['group', 'd1'] if 'group' in T else ['svc2', 'd1'])
            r.shuffle(tops)
            T['all'] = {'kind': 'aggregate', 'deps': tops}
            roots = ['all']
        else:
            fam, T, roots = sysrun.gen_graph(r, family=r.choice(['svc', 'aggchain', 'random', 'random', 'fan', 'diamond']))
        aggs = [t for t in T if T[t]['kind'] == 'aggregate']
        if fam == 'deepnest':
            aggs = ['all']
        if not aggs:
            continue
        G = r.choice(aggs)
        fail = set()
        if r.random() < 0.25:
            builds = [t for t in sysrun.closure(T, [G]) if T[t]['kind'] == 'build']
            if builds:
                fail = {r.choice(builds)}
        obs, V = sysrun.aggregate_pair(r, T, G, fail=fail if fam != 'deepnest' else set(), tag='C20_%d' % done, hold_s=hold)
        done += 1
        ck.count(('pair', json.dumps(T, sort_keys=True), G, tuple(sorted(fail))), nontrivial=True,
                 sample={'family': fam, 'targets': T, 'aggregate': G, 'fail': sorted(fail),
                         'requesting_aggregate': obs['requesting_aggregate'].get('started'),
                         'requesting_dependencies': obs['requesting_dependencies'].get('started')})
        ck.tally('pair:ndeps=%d' % len(T[G]['deps']))
        if 'C20' in V:
            o = {'targets': T, 'roots': [G], 'fail': sorted(fail), 'gated': True, 'outcome': 'pair-differs', 'exit_code': None,
                 'trace': obs['requesting_aggregate'].get('trace', []), 'stderr_tail': '', 'pair': obs}
            found.append((o, V['C20']))
    return found


def keep(o):
    return ('<-Ok:' in o) or ('<-Iv:' in o) or ('<-Rq:' in o)


def run(ck):
    engine.check_engine(ck, 'C20', actor.proj(keep_out=keep, keys=()), 'Ok (with actual flag) / Invalidated / Requested messages sent',
                        n_sys_quick=10, families=['aggchain', 'svc', 'diamond', 'fan'], fail_p=0.2, extra=pairs, n_evflow_quick=16)


def replay(ck, path):
    engine.replay(ck, 'C20', path, run)
