# C18 — recorded state is per target and independent of how the target was reached.
# Theorems: coq/Properties/C18.v. Correspondence (slices/incr.py):
#  (a) black-box sequences of real-binary invocations over one multi-project tree from different entry directories / spellings /
#      flags (c18_check), record paths compared with Incremental.checksums_path;
#  (b) in-process histories with several targets on one tree (mode incr): running / failing one target leaves the state files of
#      the others byte-identical and never creates a file that is not its own (frame oracle inside check_histories).
import vf
from slices import incr
from props import C02


def run(ck):
    d = vf.scratch_dir('C18')
    quick = ck.tier == 'quick'
    incr.c18_check(ck, d, 40 if quick else 400)
    ck.rule(C02.RULE)
    n = 40 if quick else 400
    hists = {}
    while len(hists) < n:
        h = incr.gen_history(ck.rng, ck.rng.choice(['edits', 'faults']))
        if len(h['targets']) > 1:
            hists['m%d' % len(hists)] = h
    incr.check_histories(ck, d, hists, 'm', ('C18',))
    incr.flush(ck)
    vf.sh(['rm', '-rf', d])


def replay(ck, path):
    incr.replay_file(ck, path, run)
