# C18 — recorded state is per target and independent of how the target was reached.
# Theorems: coq/Properties/C18.v. Correspondence (slices/incr.py):
#  (a) black-box sequences of real-binary invocations over one multi-project tree from different entry directories / spellings /
#      flags (c18_check), record paths compared with Incremental.checksums_path;
#  (b) in-process histories with several targets on one tree (mode incr): running / failing one target leaves the state files of
#      the others byte-identical and never creates a file that is not its own (frame oracle inside check_histories).
import vf
from slices import incr
from props import C02


def entry_points(ck, d):
    """a project imported through non-canonical spellings (sibling `../lib`, a symlink, `./sub/../sub`): its target must be
    skipped or rebuilt identically whether reached from an importing project or from its own directory"""
    import os
    ck.rule('entry points: one library project imported by three projects through `../lib`, a symlinked directory and '
            '`./x/../../lib`; sequences of invocations from the importing projects and from the library directory itself; the '
            'library target must run exactly once over an untouched tree, and once more after each edit of its input')
    n = 3 if ck.tier == 'quick' else 20
    for it in range(n):
        r = ck.rng
        root = os.path.join(d, 'entry%d' % it)
        lib = os.path.join(root, 'lib')
        os.makedirs(os.path.join(lib, 'src'))
        with open(os.path.join(lib, 'src', 'in.txt'), 'w') as f:
            f.write('v0\n')
        with open(os.path.join(lib, 'zinoma.yml'), 'w') as f:
            f.write('name: lib\ntargets:\n  x:\n    input:\n      - paths: [src]\n    output:\n      - paths: [out.txt]\n'
                    '    build: cat src/in.txt > out.txt && echo ran >> runs.log\n')
        spellings = {'app1': '../lib', 'app2': 'liblink', 'app3': './x/../../lib'}
        for app, sp in spellings.items():
            os.makedirs(os.path.join(root, app, 'x'))
            if app == 'app2':
                os.symlink(lib, os.path.join(root, app, 'liblink'))
            with open(os.path.join(root, app, 'zinoma.yml'), 'w') as f:
                f.write('imports:\n  lib: %s\ntargets:\n  use:\n    input:\n      - lib::x.output\n    build: cat %s/out.txt > used.txt\n'
                        % (sp, sp))
        entries = [('-p', os.path.join(root, a), 'use') for a in spellings] + [('-p', lib, 'x'), ('-p', lib, 'lib::x')]
        expected = 0
        seq = []
        for step in range(r.randint(4, 7)):
            if step == 0 or r.random() < 0.3:
                with open(os.path.join(lib, 'src', 'in.txt'), 'w') as f:
                    f.write('v%d.%d\n' % (it, step))
                expected += 1
                seq.append('edit')
            e = r.choice(entries)
            rc, out, err = vf.sh([vf.ZINOMA] + list(e), timeout=60, env={'RUST_BACKTRACE': '0'})
            seq.append(' '.join(x.replace(root, '<root>') for x in e))
            try:
                runs = len(open(os.path.join(lib, 'runs.log')).read().splitlines())
            except FileNotFoundError:
                runs = 0
            ck.count(('entry', it, step, tuple(seq)), sample={'sequence': list(seq), 'lib::x runs': runs, 'expected': expected})
            ck.tally('entry:' + e[2])
            if rc != 0 or runs != expected:
                ck.violation({'kind': 'entry-points', 'sequence': list(seq), 'exit': rc, 'stderr_tail': err[-400:],
                              'what': 'lib::x ran %d times, expected %d: the decision depends on how the target was reached' % (runs, expected),
                              'replay': 'lib project (target x: input src, output out.txt) imported as ../lib, through a symlink and '
                                        'as ./x/../../lib; run the listed invocations in order'}, found_input=True)
                break


def run(ck):
    d = vf.scratch_dir('C18')
    quick = ck.tier == 'quick'
    incr.c18_check(ck, d, 40 if quick else 400)
    ck.rule(C02.RULE)
    n = 40 if quick else 400
    hists = {}
    while len(hists) < n:
        h = incr.gen_history(ck.rng, ck.rng.choice(['edits', 'faults']))
        if len(h['targets']) > 1:
            hists['m%d' % len(hists)] = h
    incr.check_histories(ck, d, hists, 'm', ('C18',))
    entry_points(ck, d)
    incr.flush(ck)
    vf.sh(['rm', '-rf', d])


def replay(ck, path):
    incr.replay_file(ck, path, run)
